//! Neutral text syntax for values (shared with the model executor).
use rl2tp::avp::types::result_code::{CdnCode, CodeValue, Error, ErrorType, StopCcnCode};
use rl2tp::avp::types::*;
use rl2tp::avp::AVP;
use rl2tp::common::{DecodeError, SliceReader};
use rl2tp::{ControlMessage, DataMessage, Message};
use std::borrow::Borrow;

pub type R<T> = Result<T, String>;

pub fn hex(b: &[u8]) -> String {
    let mut s = String::with_capacity(b.len() * 2);
    for x in b {
        s.push_str(&format!("{:02x}", x));
    }
    s
}
pub fn unhex(s: &str) -> R<Vec<u8>> {
    if s.len() % 2 != 0 {
        return Err("odd hex".into());
    }
    let b = s.as_bytes();
    let v = |c: u8| -> R<u8> {
        match c {
            b'0'..=b'9' => Ok(c - b'0'),
            b'a'..=b'f' => Ok(c - b'a' + 10),
            b'A'..=b'F' => Ok(c - b'A' + 10),
            _ => Err("hex digit".into()),
        }
    };
    let mut out = Vec::with_capacity(s.len() / 2);
    for i in (0..b.len()).step_by(2) {
        out.push(v(b[i])? * 16 + v(b[i + 1])?);
    }
    Ok(out)
}

pub fn split_top(delim: char, s: &str) -> Vec<&str> {
    if s.is_empty() {
        return vec![];
    }
    let mut parts = vec![];
    let mut depth = 0i32;
    let mut start = 0usize;
    for (i, c) in s.char_indices() {
        if c == '(' || c == '[' {
            depth += 1;
        } else if c == ')' || c == ']' {
            depth -= 1;
        } else if c == delim && depth == 0 {
            parts.push(&s[start..i]);
            start = i + 1;
        }
    }
    parts.push(&s[start..]);
    parts
}
pub fn head_args(s: &str) -> R<(&str, &str)> {
    match s.find('(') {
        None => Ok((s, "")),
        Some(i) => {
            if !s.ends_with(')') {
                return Err(format!("paren: {s}"));
            }
            Ok((&s[..i], &s[i + 1..s.len() - 1]))
        }
    }
}
pub fn unbracket(s: &str) -> R<&str> {
    if s.len() < 2 || !s.starts_with('[') || !s.ends_with(']') {
        return Err(format!("bracket: {s}"));
    }
    Ok(&s[1..s.len() - 1])
}

fn num<T: std::str::FromStr>(s: &str) -> R<T> {
    s.parse::<T>().map_err(|_| format!("number: {s}"))
}

pub fn mt_name(t: &MessageType) -> &'static str {
    use MessageType::*;
    match t {
        StartControlConnectionRequest => "StartControlConnectionRequest",
        StartControlConnectionReply => "StartControlConnectionReply",
        StartControlConnectionConnected => "StartControlConnectionConnected",
        StopControlConnectionNotification => "StopControlConnectionNotification",
        Hello => "Hello",
        OutgoingCallRequest => "OutgoingCallRequest",
        OutgoingCallReply => "OutgoingCallReply",
        OutgoingCallConnected => "OutgoingCallConnected",
        IncomingCallRequest => "IncomingCallRequest",
        IncomingCallReply => "IncomingCallReply",
        IncomingCallConnected => "IncomingCallConnected",
        CallDisconnectNotify => "CallDisconnectNotify",
        WanErrorNotify => "WanErrorNotify",
        SetLinkInfo => "SetLinkInfo",
    }
}
pub fn mt_of(s: &str) -> R<MessageType> {
    use MessageType::*;
    Ok(match s {
        "StartControlConnectionRequest" => StartControlConnectionRequest,
        "StartControlConnectionReply" => StartControlConnectionReply,
        "StartControlConnectionConnected" => StartControlConnectionConnected,
        "StopControlConnectionNotification" => StopControlConnectionNotification,
        "Hello" => Hello,
        "OutgoingCallRequest" => OutgoingCallRequest,
        "OutgoingCallReply" => OutgoingCallReply,
        "OutgoingCallConnected" => OutgoingCallConnected,
        "IncomingCallRequest" => IncomingCallRequest,
        "IncomingCallReply" => IncomingCallReply,
        "IncomingCallConnected" => IncomingCallConnected,
        "CallDisconnectNotify" => CallDisconnectNotify,
        "WanErrorNotify" => WanErrorNotify,
        "SetLinkInfo" => SetLinkInfo,
        _ => return Err(format!("mt name: {s}")),
    })
}
pub fn et_name(t: &ErrorType) -> &'static str {
    use ErrorType::*;
    match t {
        Ok => "Ok",
        NoControlConnectionExists => "NoControlConnectionExists",
        WrongLength => "WrongLength",
        OutOfRangeOrBadReserved => "OutOfRangeOrBadReserved",
        InsufficientResources => "InsufficientResources",
        InvalidSessionId => "InvalidSessionId",
        Generic => "Generic",
        TryAnotherDestination => "TryAnotherDestination",
        UnknownMandatoryAvp => "UnknownMandatoryAvp",
    }
}
pub fn et_of(s: &str) -> R<ErrorType> {
    use ErrorType::*;
    R::Ok(match s {
        "Ok" => Ok,
        "NoControlConnectionExists" => NoControlConnectionExists,
        "WrongLength" => WrongLength,
        "OutOfRangeOrBadReserved" => OutOfRangeOrBadReserved,
        "InsufficientResources" => InsufficientResources,
        "InvalidSessionId" => InvalidSessionId,
        "Generic" => Generic,
        "TryAnotherDestination" => TryAnotherDestination,
        "UnknownMandatoryAvp" => UnknownMandatoryAvp,
        _ => return Err(format!("et name: {s}")),
    })
}
pub fn pa_name(t: &ProxyAuthenType) -> &'static str {
    use ProxyAuthenType::*;
    match t {
        Reserved => "Reserved",
        TextualUserNamePasswordExchange => "TextualUserNamePasswordExchange",
        PppChap => "PppChap",
        PppPap => "PppPap",
        NoAuthentication => "NoAuthentication",
        MicrosoftChapVersion1 => "MicrosoftChapVersion1",
    }
}
pub fn pa_of(s: &str) -> R<ProxyAuthenType> {
    use ProxyAuthenType::*;
    Ok(match s {
        "Reserved" => Reserved,
        "TextualUserNamePasswordExchange" => TextualUserNamePasswordExchange,
        "PppChap" => PppChap,
        "PppPap" => PppPap,
        "NoAuthentication" => NoAuthentication,
        "MicrosoftChapVersion1" => MicrosoftChapVersion1,
        _ => return Err(format!("pa name: {s}")),
    })
}
pub fn sc_name(t: &StopCcnCode) -> &'static str {
    use StopCcnCode::*;
    match t {
        Reserved => "Reserved",
        GeneralRequestToClearControlConnection => "GeneralRequestToClearControlConnection",
        GeneralError => "GeneralError",
        ControlChannelAlreadyExists => "ControlChannelAlreadyExists",
        RequesterNotAuthorizedToEstablishControlChannel => {
            "RequesterNotAuthorizedToEstablishControlChannel"
        }
        RequesterProtocolVersionUnsupported => "RequesterProtocolVersionUnsupported",
        RequesterShutdown => "RequesterShutdown",
        FsmError => "FsmError",
    }
}
pub fn sc_of(s: &str) -> R<StopCcnCode> {
    use StopCcnCode::*;
    Ok(match s {
        "Reserved" => Reserved,
        "GeneralRequestToClearControlConnection" => GeneralRequestToClearControlConnection,
        "GeneralError" => GeneralError,
        "ControlChannelAlreadyExists" => ControlChannelAlreadyExists,
        "RequesterNotAuthorizedToEstablishControlChannel" => {
            RequesterNotAuthorizedToEstablishControlChannel
        }
        "RequesterProtocolVersionUnsupported" => RequesterProtocolVersionUnsupported,
        "RequesterShutdown" => RequesterShutdown,
        "FsmError" => FsmError,
        _ => return Err(format!("stop name: {s}")),
    })
}
pub fn cd_name(t: &CdnCode) -> &'static str {
    use CdnCode::*;
    match t {
        Reserved => "Reserved",
        CallDisconnectedLossOfCarrier => "CallDisconnectedLossOfCarrier",
        CallDisconnectedWithErrorCode => "CallDisconnectedWithErrorCode",
        CallDisconnectedAdministrative => "CallDisconnectedAdministrative",
        CallFailedTemporarilyUnavailable => "CallFailedTemporarilyUnavailable",
        CallFailedPermanentlyUnavailable => "CallFailedPermanentlyUnavailable",
        InvalidDestination => "InvalidDestination",
        CallFailedNoCarrier => "CallFailedNoCarrier",
        CallFailedBusySignal => "CallFailedBusySignal",
        CallFailedNoDialTone => "CallFailedNoDialTone",
        CallEstablishTimeout => "CallEstablishTimeout",
        CallNoFramingDetected => "CallNoFramingDetected",
    }
}
pub fn cd_of(s: &str) -> R<CdnCode> {
    use CdnCode::*;
    Ok(match s {
        "Reserved" => Reserved,
        "CallDisconnectedLossOfCarrier" => CallDisconnectedLossOfCarrier,
        "CallDisconnectedWithErrorCode" => CallDisconnectedWithErrorCode,
        "CallDisconnectedAdministrative" => CallDisconnectedAdministrative,
        "CallFailedTemporarilyUnavailable" => CallFailedTemporarilyUnavailable,
        "CallFailedPermanentlyUnavailable" => CallFailedPermanentlyUnavailable,
        "InvalidDestination" => InvalidDestination,
        "CallFailedNoCarrier" => CallFailedNoCarrier,
        "CallFailedBusySignal" => CallFailedBusySignal,
        "CallFailedNoDialTone" => CallFailedNoDialTone,
        "CallEstablishTimeout" => CallEstablishTimeout,
        "CallNoFramingDetected" => CallNoFramingDetected,
        _ => return Err(format!("cdn name: {s}")),
    })
}

/// The raw 32-bit word of a bitmask AVP (its only field is private): the last
/// integer in its derived Debug text, whatever the field is called.
fn debug_word<T: std::fmt::Debug>(x: &T) -> String {
    let s = format!("{:?}", x);
    let mut last: Option<String> = None;
    let mut cur = String::new();
    for c in s.chars() {
        if c.is_ascii_digit() {
            cur.push(c);
        } else if !cur.is_empty() {
            last = Some(std::mem::take(&mut cur));
        }
    }
    if !cur.is_empty() {
        last = Some(cur);
    }
    last.unwrap_or_else(|| format!("?{s}"))
}

fn opt_hex(o: &Option<String>) -> String {
    match o {
        None => "-".into(),
        Some(s) => format!("x{}", hex(s.as_bytes())),
    }
}
fn parse_opt_str(s: &str) -> R<Option<String>> {
    if s == "-" {
        Ok(None)
    } else if let Some(h) = s.strip_prefix('x') {
        Ok(Some(String::from_utf8(unhex(h)?).map_err(|_| "not utf8".to_string())?))
    } else {
        Err(format!("opt hex: {s}"))
    }
}

pub fn print_avp(a: &AVP) -> String {
    match a {
        AVP::MessageType(t) => format!("MessageType({})", mt_name(t)),
        AVP::RandomVector(x) => format!("RandomVector({})", hex(&x.value)),
        AVP::ResultCode(rc) => {
            let code: u16 = rc.code.into();
            match &rc.error {
                None => format!("ResultCode({code},-)"),
                Some(e) => format!(
                    "ResultCode({code},{},{})",
                    et_name(&e.error_type),
                    opt_hex(&e.error_message)
                ),
            }
        }
        AVP::ProtocolVersion(x) => format!("ProtocolVersion({},{})", x.version, x.revision),
        AVP::FramingCapabilities(x) => format!("FramingCapabilities({})", debug_word(x)),
        AVP::BearerCapabilities(x) => format!("BearerCapabilities({})", debug_word(x)),
        AVP::TieBreaker(x) => format!("TieBreaker({})", x.value),
        AVP::FirmwareRevision(x) => format!("FirmwareRevision({})", x.value),
        AVP::HostName(x) => format!("HostName({})", hex(&x.value)),
        AVP::VendorName(x) => format!("VendorName({})", hex(x.value.as_bytes())),
        AVP::AssignedTunnelId(x) => format!("AssignedTunnelId({})", x.value),
        AVP::ReceiveWindowSize(x) => format!("ReceiveWindowSize({})", x.value),
        AVP::Challenge(x) => format!("Challenge({})", hex(&x.value)),
        AVP::ChallengeResponse(x) => format!("ChallengeResponse({})", hex(&x.value)),
        AVP::Q931CauseCode(x) => format!(
            "Q931CauseCode({},{},{})",
            x.cause_code,
            x.cause_msg,
            opt_hex(&x.advisory)
        ),
        AVP::AssignedSessionId(x) => format!("AssignedSessionId({})", x.value),
        AVP::CallSerialNumber(x) => format!("CallSerialNumber({})", x.value),
        AVP::MinimumBps(x) => format!("MinimumBps({})", x.value),
        AVP::MaximumBps(x) => format!("MaximumBps({})", x.value),
        AVP::BearerType(x) => format!("BearerType({})", debug_word(x)),
        AVP::FramingType(x) => format!("FramingType({})", debug_word(x)),
        AVP::CalledNumber(x) => format!("CalledNumber({})", hex(x.value.as_bytes())),
        AVP::CallingNumber(x) => format!("CallingNumber({})", hex(x.value.as_bytes())),
        AVP::SubAddress(x) => format!("SubAddress({})", hex(x.value.as_bytes())),
        AVP::TxConnectSpeed(x) => format!("TxConnectSpeed({})", x.value),
        AVP::RxConnectSpeed(x) => format!("RxConnectSpeed({})", x.value),
        AVP::PhysicalChannelId(x) => format!("PhysicalChannelId({})", hex(&x.value)),
        AVP::PrivateGroupId(x) => format!("PrivateGroupId({})", hex(&x.value)),
        AVP::SequencingRequired(_) => "SequencingRequired()".into(),
        AVP::InitialReceivedLcpConfReq(x) => format!("InitialReceivedLcpConfReq({})", hex(&x.value)),
        AVP::LastSentLcpConfReq(x) => format!("LastSentLcpConfReq({})", hex(&x.value)),
        AVP::LastReceivedLcpConfReq(x) => format!("LastReceivedLcpConfReq({})", hex(&x.value)),
        AVP::ProxyAuthenType(x) => format!("ProxyAuthenType({})", pa_name(x)),
        AVP::ProxyAuthenName(x) => format!("ProxyAuthenName({})", hex(&x.value)),
        AVP::ProxyAuthenChallenge(x) => format!("ProxyAuthenChallenge({})", hex(&x.value)),
        AVP::ProxyAuthenId(x) => format!("ProxyAuthenId({})", x.value),
        AVP::ProxyAuthenResponse(x) => format!("ProxyAuthenResponse({})", hex(&x.value)),
        AVP::CallErrors(x) => format!(
            "CallErrors({},{},{},{},{},{})",
            x.crc_errors,
            x.framing_errors,
            x.hardware_overruns,
            x.buffer_overruns,
            x.timeout_errors,
            x.alignment_errors
        ),
        AVP::Accm(x) => format!("Accm({},{})", hex(&x.send_accm), hex(&x.receive_accm)),
        AVP::Hidden(x) => format!("Hidden({},{})", x.attribute_type, hex(&x.value)),
    }
}

fn arr<const K: usize>(s: &str) -> R<[u8; K]> {
    let v = unhex(s)?;
    v.try_into().map_err(|_| format!("array of {K}: {s}"))
}
fn utf8(s: &str) -> R<String> {
    String::from_utf8(unhex(s)?).map_err(|_| "not utf8".to_string())
}
/// A bitmask value holding an arbitrary 32-bit word: through the public try_read.
macro_rules! word {
    ($t:ident, $s:expr) => {{
        let w: u32 = num($s)?;
        let b = w.to_be_bytes();
        let mut r = SliceReader::from(&b[..]);
        $t::try_read::<&[u8]>(&mut r).map_err(|e| format!("bitmask: {e:?}"))?
    }};
}

pub fn parse_avp(s: &str) -> R<AVP> {
    let (hd, args) = head_args(s)?;
    let a: Vec<&str> = args.split(',').collect();
    let arg = |i: usize| -> R<&str> { a.get(i).copied().ok_or(format!("missing arg: {s}")) };
    Ok(match hd {
        "MessageType" => AVP::MessageType(mt_of(arg(0)?)?),
        "RandomVector" => AVP::RandomVector(RandomVector { value: arr::<4>(arg(0)?)? }),
        "ResultCode" => {
            let code: u16 = num(arg(0)?)?;
            let error = if a.len() == 2 {
                if arg(1)? != "-" {
                    return Err(format!("result code: {s}"));
                }
                None
            } else {
                Some(Error { error_type: et_of(arg(1)?)?, error_message: parse_opt_str(arg(2)?)? })
            };
            AVP::ResultCode(ResultCode { code: CodeValue::from(code), error })
        }
        "ProtocolVersion" => {
            AVP::ProtocolVersion(ProtocolVersion { version: num(arg(0)?)?, revision: num(arg(1)?)? })
        }
        "FramingCapabilities" => AVP::FramingCapabilities(word!(FramingCapabilities, arg(0)?)),
        "BearerCapabilities" => AVP::BearerCapabilities(word!(BearerCapabilities, arg(0)?)),
        "BearerType" => AVP::BearerType(word!(BearerType, arg(0)?)),
        "FramingType" => AVP::FramingType(word!(FramingType, arg(0)?)),
        "TieBreaker" => AVP::TieBreaker(TieBreaker { value: num(arg(0)?)? }),
        "FirmwareRevision" => AVP::FirmwareRevision(FirmwareRevision { value: num(arg(0)?)? }),
        "HostName" => AVP::HostName(HostName { value: unhex(arg(0)?)? }),
        "VendorName" => AVP::VendorName(VendorName { value: utf8(arg(0)?)? }),
        "AssignedTunnelId" => AVP::AssignedTunnelId(AssignedTunnelId { value: num(arg(0)?)? }),
        "ReceiveWindowSize" => AVP::ReceiveWindowSize(ReceiveWindowSize { value: num(arg(0)?)? }),
        "Challenge" => AVP::Challenge(Challenge { value: unhex(arg(0)?)? }),
        "ChallengeResponse" => AVP::ChallengeResponse(ChallengeResponse { value: arr::<16>(arg(0)?)? }),
        "Q931CauseCode" => AVP::Q931CauseCode(Q931CauseCode {
            cause_code: num(arg(0)?)?,
            cause_msg: num(arg(1)?)?,
            advisory: parse_opt_str(arg(2)?)?,
        }),
        "AssignedSessionId" => AVP::AssignedSessionId(AssignedSessionId { value: num(arg(0)?)? }),
        "CallSerialNumber" => AVP::CallSerialNumber(CallSerialNumber { value: num(arg(0)?)? }),
        "MinimumBps" => AVP::MinimumBps(MinimumBps { value: num(arg(0)?)? }),
        "MaximumBps" => AVP::MaximumBps(MaximumBps { value: num(arg(0)?)? }),
        "CalledNumber" => AVP::CalledNumber(CalledNumber { value: utf8(arg(0)?)? }),
        "CallingNumber" => AVP::CallingNumber(CallingNumber { value: utf8(arg(0)?)? }),
        "SubAddress" => AVP::SubAddress(SubAddress { value: utf8(arg(0)?)? }),
        "TxConnectSpeed" => AVP::TxConnectSpeed(TxConnectSpeed { value: num(arg(0)?)? }),
        "RxConnectSpeed" => AVP::RxConnectSpeed(RxConnectSpeed { value: num(arg(0)?)? }),
        "PhysicalChannelId" => AVP::PhysicalChannelId(PhysicalChannelId { value: arr::<4>(arg(0)?)? }),
        "PrivateGroupId" => AVP::PrivateGroupId(PrivateGroupId { value: unhex(arg(0)?)? }),
        "SequencingRequired" => AVP::SequencingRequired(SequencingRequired {}),
        "InitialReceivedLcpConfReq" => {
            AVP::InitialReceivedLcpConfReq(InitialReceivedLcpConfReq { value: unhex(arg(0)?)? })
        }
        "LastSentLcpConfReq" => AVP::LastSentLcpConfReq(LastSentLcpConfReq { value: unhex(arg(0)?)? }),
        "LastReceivedLcpConfReq" => {
            AVP::LastReceivedLcpConfReq(LastReceivedLcpConfReq { value: unhex(arg(0)?)? })
        }
        "ProxyAuthenType" => AVP::ProxyAuthenType(pa_of(arg(0)?)?),
        "ProxyAuthenName" => AVP::ProxyAuthenName(ProxyAuthenName { value: unhex(arg(0)?)? }),
        "ProxyAuthenChallenge" => {
            AVP::ProxyAuthenChallenge(ProxyAuthenChallenge { value: unhex(arg(0)?)? })
        }
        "ProxyAuthenId" => AVP::ProxyAuthenId(ProxyAuthenId { value: num(arg(0)?)? }),
        "ProxyAuthenResponse" => {
            AVP::ProxyAuthenResponse(ProxyAuthenResponse { value: unhex(arg(0)?)? })
        }
        "CallErrors" => AVP::CallErrors(CallErrors {
            crc_errors: num(arg(0)?)?,
            framing_errors: num(arg(1)?)?,
            hardware_overruns: num(arg(2)?)?,
            buffer_overruns: num(arg(3)?)?,
            timeout_errors: num(arg(4)?)?,
            alignment_errors: num(arg(5)?)?,
        }),
        "Accm" => AVP::Accm(Accm { send_accm: arr::<4>(arg(0)?)?, receive_accm: arr::<4>(arg(1)?)? }),
        "Hidden" => AVP::Hidden(Hidden { attribute_type: num(arg(0)?)?, value: unhex(arg(1)?)? }),
        _ => return Err(format!("avp kind: {hd}")),
    })
}

pub fn print_err(e: &DecodeError) -> String {
    // derive(Debug) prints `Variant(payload)` / `Variant`
    format!("{:?}", e)
}

pub fn parse_err(s: &str) -> R<DecodeError> {
    use DecodeError::*;
    let (hd, args) = head_args(s)?;
    Ok(match hd {
        "IncompleteAVP" => IncompleteAVP(num(args)?),
        "UnknownMessageType" => UnknownMessageType(num(args)?),
        "InvalidUtf8" => InvalidUtf8(num(args)?),
        "InvalidResultCodeErrorType" => InvalidResultCodeErrorType(num(args)?),
        "AVPReadError" => AVPReadError(num(args)?),
        "InvalidAVPLength" => InvalidAVPLength(num(args)?),
        "UnknownAvp" => UnknownAvp(num(args)?),
        "EmptyHiddenAVP" => EmptyHiddenAVP,
        "MisalignedHiddenAVP" => MisalignedHiddenAVP,
        "InvalidOriginalAVPLength" => InvalidOriginalAVPLength(num(args)?),
        "UnsupportedVendorId" => UnsupportedVendorId(num(args)?),
        "InvalidVersion" => InvalidVersion(num(args)?),
        "InvalidReservedBits" => InvalidReservedBits,
        "IncompleteFlags" => IncompleteFlags,
        "InvalidOffset" => InvalidOffset(num(args)?),
        "IncompleteDataMessageHeader" => IncompleteDataMessageHeader,
        "IncompleteDataMessagePayload" => IncompleteDataMessagePayload,
        "EmptyDataMessagePayload" => EmptyDataMessagePayload,
        "MessageReadError" => MessageReadError,
        "ForbiddenControlMessagePriority" => ForbiddenControlMessagePriority,
        "ForbiddenControlMessageOffset" => ForbiddenControlMessageOffset,
        "ControlMessageWithoutLength" => ControlMessageWithoutLength,
        "ControlMessageWithoutNsNr" => ControlMessageWithoutNsNr,
        "IncompleteControlMessageHeader" => IncompleteControlMessageHeader,
        "IncompleteControlMessagePayload" => IncompleteControlMessagePayload,
        "ControlMessageTypeNotFirst" => ControlMessageTypeNotFirst,
        _ => return Err(format!("error name: {s}")),
    })
}

pub fn print_avps(l: &[AVP]) -> String {
    format!("[{}]", l.iter().map(print_avp).collect::<Vec<_>>().join(";"))
}
pub fn parse_avps(s: &str) -> R<Vec<AVP>> {
    split_top(';', unbracket(s)?).into_iter().map(parse_avp).collect()
}

pub fn print_msg<T: Borrow<[u8]>>(m: &Message<T>) -> String {
    match m {
        Message::Control(c) => format!(
            "C({},{},{},{},{},{})",
            c.length,
            c.tunnel_id,
            c.session_id,
            c.ns,
            c.nr,
            print_avps(&c.avps)
        ),
        Message::Data(d) => format!(
            "D({},{},{},{},{},{},{})",
            if d.is_prioritized { 1 } else { 0 },
            d.length.map(|x| x.to_string()).unwrap_or("-".into()),
            d.tunnel_id,
            d.session_id,
            d.ns_nr.map(|(a, b)| format!("{a}:{b}")).unwrap_or("-".into()),
            d.offset.map(|x| x.to_string()).unwrap_or("-".into()),
            hex(d.data.borrow())
        ),
    }
}

pub fn parse_msg(s: &str) -> R<Message<Vec<u8>>> {
    let (hd, args) = head_args(s)?;
    let a = split_top(',', args);
    let arg = |i: usize| -> R<&str> { a.get(i).copied().ok_or(format!("missing arg: {s}")) };
    match hd {
        "C" => Ok(Message::Control(ControlMessage {
            length: num(arg(0)?)?,
            tunnel_id: num(arg(1)?)?,
            session_id: num(arg(2)?)?,
            ns: num(arg(3)?)?,
            nr: num(arg(4)?)?,
            avps: parse_avps(arg(5)?)?,
        })),
        "D" => {
            let opt16 = |s: &str| -> R<Option<u16>> { if s == "-" { Ok(None) } else { Ok(Some(num(s)?)) } };
            let nsnr = if arg(4)? == "-" {
                None
            } else {
                let p: Vec<&str> = arg(4)?.split(':').collect();
                if p.len() != 2 {
                    return Err("nsnr".into());
                }
                Some((num::<u16>(p[0])?, num::<u16>(p[1])?))
            };
            Ok(Message::Data(DataMessage {
                is_prioritized: arg(0)? == "1",
                length: opt16(arg(1)?)?,
                tunnel_id: num(arg(2)?)?,
                session_id: num(arg(3)?)?,
                ns_nr: nsnr,
                offset: opt16(arg(5)?)?,
                data: unhex(a.get(6).copied().unwrap_or(""))?,
            }))
        }
        _ => Err(format!("message: {s}")),
    }
}
