//! A harness-supplied implementation of the public `Writer` trait that records
//! every positional overwrite (offset, size, buffer length at the time).
use rl2tp::common::Writer;

#[derive(Default)]
pub struct RecordingWriter {
    pub data: Vec<u8>,
    pub log: Vec<(usize, usize, usize)>,
}

impl Writer for RecordingWriter {
    fn is_empty(&self) -> bool { self.data.is_empty() }
    fn len(&self) -> usize { self.data.len() }
    fn write_bytes(&mut self, bytes: &[u8]) { self.data.extend_from_slice(bytes); }
    fn write_bytes_at(&mut self, bytes: &[u8], offset: usize) {
        self.log.push((offset, bytes.len(), self.data.len()));
        assert!(offset + bytes.len() <= self.data.len());
        self.data[offset..offset + bytes.len()].copy_from_slice(bytes);
    }
    fn write_u8(&mut self, value: u8) { self.data.push(value); }
    fn write_u16_be(&mut self, value: u16) { self.data.extend_from_slice(&value.to_be_bytes()); }
    fn write_u32_be(&mut self, value: u32) { self.data.extend_from_slice(&value.to_be_bytes()); }
    fn write_u64_be(&mut self, value: u64) { self.data.extend_from_slice(&value.to_be_bytes()); }
}

/// A writer that already "holds" `base` octets without storing them: `len()` counts them, appended octets are
/// kept, and a positional overwrite below `base` (i.e. of earlier content) is recorded instead of performed.
/// Lets the encoders run at positions beyond 64 KiB / 4 GiB.
pub struct OffsetWriter {
    pub base: usize,
    pub data: Vec<u8>,
    pub low: Vec<(usize, usize)>,
}

impl OffsetWriter {
    pub fn new(base: usize) -> Self { Self { base, data: Vec::new(), low: Vec::new() } }
}

impl Writer for OffsetWriter {
    fn is_empty(&self) -> bool { self.base == 0 && self.data.is_empty() }
    fn len(&self) -> usize { self.base + self.data.len() }
    fn write_bytes(&mut self, bytes: &[u8]) { self.data.extend_from_slice(bytes); }
    fn write_bytes_at(&mut self, bytes: &[u8], offset: usize) {
        if offset < self.base {
            self.low.push((offset, bytes.len()));
            return;
        }
        let o = offset - self.base;
        assert!(o + bytes.len() <= self.data.len());
        self.data[o..o + bytes.len()].copy_from_slice(bytes);
    }
    fn write_u8(&mut self, value: u8) { self.data.push(value); }
    fn write_u16_be(&mut self, value: u16) { self.data.extend_from_slice(&value.to_be_bytes()); }
    fn write_u32_be(&mut self, value: u32) { self.data.extend_from_slice(&value.to_be_bytes()); }
    fn write_u64_be(&mut self, value: u64) { self.data.extend_from_slice(&value.to_be_bytes()); }
}
