//! Implementation executor: reads one case per line (tab-separated), runs the
//! public API of rl2tp under catch_unwind, prints one canonical result line per
//! case.  Generates nothing, decides nothing.
mod checked_reader;
mod limit_reader;
mod recording_writer;
mod text;

use checked_reader::CheckedReader;
use limit_reader::{LimitReader, SeamReader};
use recording_writer::{OffsetWriter, RecordingWriter};
use rl2tp::avp::types::result_code::CodeValue;
use rl2tp::avp::types::*;
use rl2tp::avp::AVP;
use rl2tp::common::{DecodeError, Reader, SliceReader, VecWriter, Writer};
use rl2tp::{Message, ValidateReserved, ValidateUnused, ValidateVersion, ValidationOptions};
use std::io::{BufRead, Write as IoWrite};
use std::panic::{catch_unwind, AssertUnwindSafe};
use text::*;

fn opts_of(s: &str) -> R<ValidationOptions> {
    let i: u8 = s.parse().map_err(|_| "opts".to_string())?;
    Ok(ValidationOptions {
        reserved: if i & 1 != 0 { ValidateReserved::Yes } else { ValidateReserved::No },
        version: if i & 2 != 0 { ValidateVersion::Yes } else { ValidateVersion::No },
        unused: if i & 4 != 0 { ValidateUnused::Yes } else { ValidateUnused::No },
    })
}

fn print_errs(es: &[DecodeError]) -> String {
    format!("[{}]", es.iter().map(print_err).collect::<Vec<_>>().join(","))
}
fn print_mres<T: std::borrow::Borrow<[u8]>>(r: &Result<Message<T>, Vec<DecodeError>>, rem: usize) -> String {
    match r {
        Ok(m) => format!("Ok {} rem={}", print_msg(m), rem),
        Err(es) => format!("Err {}", print_errs(es)),
    }
}
fn print_dres(r: &Result<AVP, DecodeError>) -> String {
    match r {
        Ok(a) => format!("Ok({})", print_avp(a)),
        Err(e) => format!("Err({})", print_err(e)),
    }
}
fn print_avpres(l: &[Result<AVP, DecodeError>], rem: usize) -> String {
    format!("[{}] rem={}", l.iter().map(print_dres).collect::<Vec<_>>().join(";"), rem)
}

/// per-type public try_read, by attribute number
fn type_read<T: std::borrow::Borrow<[u8]>>(t: u16, r: &mut impl Reader<T>) -> Result<AVP, DecodeError> {
    Ok(match t {
        0 => AVP::MessageType(MessageType::try_read(r)?),
        1 => AVP::ResultCode(ResultCode::try_read(r)?),
        2 => AVP::ProtocolVersion(ProtocolVersion::try_read(r)?),
        3 => AVP::FramingCapabilities(FramingCapabilities::try_read(r)?),
        4 => AVP::BearerCapabilities(BearerCapabilities::try_read(r)?),
        5 => AVP::TieBreaker(TieBreaker::try_read(r)?),
        6 => AVP::FirmwareRevision(FirmwareRevision::try_read(r)?),
        7 => AVP::HostName(HostName::try_read(r)?),
        8 => AVP::VendorName(VendorName::try_read(r)?),
        9 => AVP::AssignedTunnelId(AssignedTunnelId::try_read(r)?),
        10 => AVP::ReceiveWindowSize(ReceiveWindowSize::try_read(r)?),
        11 => AVP::Challenge(Challenge::try_read(r)?),
        12 => AVP::Q931CauseCode(Q931CauseCode::try_read(r)?),
        13 => AVP::ChallengeResponse(ChallengeResponse::try_read(r)?),
        14 => AVP::AssignedSessionId(AssignedSessionId::try_read(r)?),
        15 => AVP::CallSerialNumber(CallSerialNumber::try_read(r)?),
        16 => AVP::MinimumBps(MinimumBps::try_read(r)?),
        17 => AVP::MaximumBps(MaximumBps::try_read(r)?),
        18 => AVP::BearerType(BearerType::try_read(r)?),
        19 => AVP::FramingType(FramingType::try_read(r)?),
        21 => AVP::CalledNumber(CalledNumber::try_read(r)?),
        22 => AVP::CallingNumber(CallingNumber::try_read(r)?),
        23 => AVP::SubAddress(SubAddress::try_read(r)?),
        24 => AVP::TxConnectSpeed(TxConnectSpeed::try_read(r)?),
        25 => AVP::PhysicalChannelId(PhysicalChannelId::try_read(r)?),
        26 => AVP::InitialReceivedLcpConfReq(InitialReceivedLcpConfReq::try_read(r)?),
        27 => AVP::LastSentLcpConfReq(LastSentLcpConfReq::try_read(r)?),
        28 => AVP::LastReceivedLcpConfReq(LastReceivedLcpConfReq::try_read(r)?),
        29 => AVP::ProxyAuthenType(ProxyAuthenType::try_read(r)?),
        30 => AVP::ProxyAuthenName(ProxyAuthenName::try_read(r)?),
        31 => AVP::ProxyAuthenChallenge(ProxyAuthenChallenge::try_read(r)?),
        32 => AVP::ProxyAuthenId(ProxyAuthenId::try_read(r)?),
        33 => AVP::ProxyAuthenResponse(ProxyAuthenResponse::try_read(r)?),
        34 => AVP::CallErrors(CallErrors::try_read(r)?),
        35 => AVP::Accm(Accm::try_read(r)?),
        36 => AVP::RandomVector(RandomVector::try_read(r)?),
        37 => AVP::PrivateGroupId(PrivateGroupId::try_read(r)?),
        38 => AVP::RxConnectSpeed(RxConnectSpeed::try_read(r)?),
        _ => return Err(DecodeError::UnknownAvp(t)),
    })
}

// ---- reader / writer operation sequences ----
fn run_rops(r: &mut SliceReader, ops: &str) -> R<String> {
    let mut out = vec![];
    for op in split_top(',', unbracket(ops)?) {
        out.push(match op {
            "len" => format!("{}", r.len()),
            "empty" => format!("{}", r.is_empty()),
            "u8" => format!("{}", unsafe { r.read_u8_unchecked() }),
            "u16" => format!("{}", unsafe { r.read_u16_be_unchecked() }),
            "u32" => format!("{}", unsafe { r.read_u32_be_unchecked() }),
            "u64" => format!("{}", unsafe { r.read_u64_be_unchecked() }),
            _ => {
                let i = op.find(':').ok_or(format!("rop: {op}"))?;
                let (k, rest) = (&op[..i], &op[i + 1..]);
                match k {
                    "bytes" => {
                        let n: usize = rest.parse().map_err(|_| "n".to_string())?;
                        match r.bytes(n) {
                            None => "None".to_string(),
                            Some(b) => format!("x{}", hex(b)),
                        }
                    }
                    "skip" => {
                        let n: usize = rest.parse().map_err(|_| "n".to_string())?;
                        r.skip_bytes(n);
                        "()".to_string()
                    }
                    "sub" => {
                        let j = rest.find('[').ok_or("sub".to_string())?;
                        let n: usize = rest[..j].parse().map_err(|_| "n".to_string())?;
                        let mut s = r.subreader(n);
                        run_rops(&mut s, &rest[j..])?
                    }
                    _ => return Err(format!("rop: {op}")),
                }
            }
        });
    }
    Ok(format!("[{}]", out.join(",")))
}

fn run_wops(ops: &str) -> R<String> {
    let mut w = VecWriter::new();
    let mut out = vec![];
    for op in split_top(',', unbracket(ops)?) {
        let p: Vec<&str> = op.split(':').collect();
        let n = |s: &str| -> R<u64> { s.parse::<u64>().map_err(|_| format!("wop num: {s}")) };
        match p.as_slice() {
            ["len"] => out.push(format!("{}", w.len())),
            ["empty"] => out.push(format!("{}", w.is_empty())),
            ["u8", x] => w.write_u8(n(x)? as u8),
            ["u16", x] => w.write_u16_be(n(x)? as u16),
            ["u32", x] => w.write_u32_be(n(x)? as u32),
            ["u64", x] => w.write_u64_be(n(x)?),
            ["bytes", h] => w.write_bytes(&unhex(h)?),
            ["at", off, h] => {
                // a refused overwrite must leave the buffer as it was: report its content
                let bs = unhex(h)?;
                let o = n(off)? as usize;
                let r = catch_unwind(AssertUnwindSafe(|| w.write_bytes_at(&bs, o)));
                if r.is_err() {
                    return Ok(format!("PANIC {}", hex(&w.data)));
                }
            }
            _ => return Err(format!("wop: {op}")),
        }
    }
    Ok(format!("{} [{}]", hex(&w.data), out.join(",")))
}

fn b01(b: bool) -> &'static str {
    if b { "1" } else { "0" }
}
fn print_log(l: &[(usize, usize, usize)]) -> String {
    format!("[{}]", l.iter().map(|(o, n, t)| format!("{o}:{n}:{t}")).collect::<Vec<_>>().join(","))
}

fn run_case(line: &str) -> R<String> {
    let f: Vec<&str> = line.split('\t').collect();
    let arg = |i: usize| -> &str { f.get(i).copied().unwrap_or("") };
    Ok(match arg(0) {
        "DEC" => {
            let b = unhex(arg(2))?;
            let mut r = SliceReader::from(&b);
            let res = Message::<&[u8]>::try_read_validate(&mut r, opts_of(arg(1))?);
            print_mres(&res, r.len())
        }
        "DEC0" => {
            let b = unhex(arg(1))?;
            let mut r = SliceReader::from(&b);
            let res = Message::<&[u8]>::try_read(&mut r);
            print_mres(&res, r.len())
        }
        "DECR" => {
            let mut r = CheckedReader::new(unhex(arg(2))?);
            let res = Message::<Vec<u8>>::try_read_validate(&mut r, opts_of(arg(1))?);
            let v = r.log.borrow().len();
            format!("{} viol={}", print_mres(&res, r.len()), v)
        }
        "DECS" => {
            let b = unhex(arg(3))?;
            let mut r = SeamReader::new(&b, arg(1).parse().map_err(|_| "seam".to_string())?);
            let res = Message::<&[u8]>::try_read_validate(&mut r, opts_of(arg(2))?);
            print_mres(&res, r.len())
        }
        "AVPSS" => {
            let b = unhex(arg(2))?;
            let mut r = SeamReader::new(&b, arg(1).parse().map_err(|_| "seam".to_string())?);
            let res = AVP::try_read_greedy::<&[u8]>(&mut r);
            print_avpres(&res, r.len())
        }
        "DECL" => {
            let b = unhex(arg(3))?;
            let mut r = LimitReader { data: &b, limit: arg(1).parse().map_err(|_| "limit".to_string())? };
            let res = Message::<&[u8]>::try_read_validate(&mut r, opts_of(arg(2))?);
            print_mres(&res, r.len())
        }
        "AVPSL" => {
            let b = unhex(arg(2))?;
            let mut r = LimitReader { data: &b, limit: arg(1).parse().map_err(|_| "limit".to_string())? };
            let res = AVP::try_read_greedy::<&[u8]>(&mut r);
            print_avpres(&res, r.len())
        }
        "DECC" => {
            let mut r = CheckedReader::new(unhex(arg(2))?);
            let _ = Message::<Vec<u8>>::try_read_validate(&mut r, opts_of(arg(1))?);
            format!("cost={}", r.cost.get())
        }
        "AVPSC" => {
            let mut r = CheckedReader::new(unhex(arg(1))?);
            let _ = AVP::try_read_greedy::<Vec<u8>>(&mut r);
            format!("cost={}", r.cost.get())
        }
        "DECSEQ" => {
            let b = unhex(arg(2))?;
            let mut r = SliceReader::from(&b);
            let mut out = vec![];
            let mut k = 0;
            while !r.is_empty() && k < 64 {
                let res = Message::<&[u8]>::try_read_validate(&mut r, opts_of(arg(1))?);
                let stop = res.is_err();
                out.push(print_mres(&res, r.len()));
                if stop {
                    break;
                }
                k += 1;
            }
            out.join(" | ")
        }
        "AVPS" => {
            let b = unhex(arg(1))?;
            let mut r = SliceReader::from(&b);
            let res = AVP::try_read_greedy::<&[u8]>(&mut r);
            print_avpres(&res, r.len())
        }
        "AVPSR" => {
            let mut r = CheckedReader::new(unhex(arg(1))?);
            let res = AVP::try_read_greedy::<Vec<u8>>(&mut r);
            let v = r.log.borrow().len();
            format!("{} viol={}", print_avpres(&res, r.len()), v)
        }
        "TYPE" => {
            let t: u16 = arg(1).parse().map_err(|_| "type".to_string())?;
            let b = unhex(arg(2))?;
            let mut r = SliceReader::from(&b);
            let res = if t == 39 { Ok(AVP::SequencingRequired(SequencingRequired::default())) } else { type_read::<&[u8]>(t, &mut r) };
            format!("{} rem={}", print_dres(&res), r.len())
        }
        "TYPER" => {
            let t: u16 = arg(1).parse().map_err(|_| "type".to_string())?;
            let mut r = CheckedReader::new(unhex(arg(2))?);
            let res = if t == 39 { Ok(AVP::SequencingRequired(SequencingRequired::default())) } else { type_read::<Vec<u8>>(t, &mut r) };
            let v = r.log.borrow().len();
            format!("{} rem={} viol={}", print_dres(&res), r.len(), v)
        }
        "ENC" => {
            let m = parse_msg(arg(1))?;
            let mut w = VecWriter::new();
            w.write_bytes(&unhex(arg(2))?);
            m.write(&mut w);
            format!("Ok {}", hex(&w.data))
        }
        "ENCA" => {
            let a = parse_avp(arg(1))?;
            let glen = a.get_length();
            let pre = unhex(arg(2))?;
            let r = catch_unwind(AssertUnwindSafe(|| {
                let mut w = VecWriter::new();
                w.write_bytes(&pre);
                a.write(&mut w);
                w.data
            }));
            match r {
                Ok(d) => format!("Ok {} glen={}", hex(&d), glen),
                Err(_) => format!("PANIC glen={}", glen),
            }
        }
        "ENCV" => {
            // encode at a (virtual) writer position: ENCV <base> <M|A> <value>
            let base: usize = arg(1).parse().map_err(|_| "base".to_string())?;
            let r = if arg(2) == "A" {
                let a = parse_avp(arg(3))?;
                catch_unwind(AssertUnwindSafe(|| { let mut w = OffsetWriter::new(base); a.write(&mut w); (w.data, w.low.len()) }))
            } else {
                let m = parse_msg(arg(3))?;
                catch_unwind(AssertUnwindSafe(|| { let mut w = OffsetWriter::new(base); m.write(&mut w); (w.data, w.low.len()) }))
            };
            match r {
                Ok((d, low)) => format!("Ok {} low={}", hex(&d), low),
                Err(_) => "PANIC".to_string(),
            }
        }
        "ENCS" => {
            let mut w = VecWriter::new();
            w.write_bytes(&unhex(arg(1))?);
            for s in &f[2..] {
                parse_msg(s)?.write(&mut w);
            }
            format!("Ok {}", hex(&w.data))
        }
        "ENCW" => {
            let mut w = RecordingWriter::default();
            w.write_bytes(&unhex(arg(1))?);
            for s in &f[2..] {
                parse_msg(s)?.write(&mut w);
            }
            format!("Ok {} log={}", hex(&w.data), print_log(&w.log))
        }
        "ENCAW" => {
            let mut w = RecordingWriter::default();
            w.write_bytes(&unhex(arg(1))?);
            for s in &f[2..] {
                parse_avp(s)?.write(&mut w);
            }
            format!("Ok {} log={}", hex(&w.data), print_log(&w.log))
        }
        "HIDE" => {
            let a = parse_avp(arg(1))?;
            let secret = unhex(arg(2))?;
            let rv = RandomVector { value: unhex(arg(3))?.try_into().map_err(|_| "rv".to_string())? };
            let lp = unhex(arg(4))?;
            let ap: [u8; 16] = unhex(arg(5))?.try_into().map_err(|_| "ap".to_string())?;
            format!("Ok {}", print_avp(&a.hide(&secret, &rv, &lp, &ap)))
        }
        "REVEAL" => {
            let a = parse_avp(arg(1))?;
            let secret = unhex(arg(2))?;
            let rv = RandomVector { value: unhex(arg(3))?.try_into().map_err(|_| "rv".to_string())? };
            match a.reveal(&secret, &rv) {
                Ok(x) => format!("Ok {}", print_avp(&x)),
                Err(e) => format!("Err {}", print_err(&e)),
            }
        }
        "MD5" => hex(&md5::compute(unhex(arg(1))?).0),
        "RDOPS" => {
            let b = unhex(arg(1))?;
            let mut r = SliceReader::from(&b);
            let o = run_rops(&mut r, arg(2))?;
            format!("{} rem={}", o, r.len())
        }
        "WROPS" => run_wops(arg(1))?,
        "BITS" => {
            let (x, y) = (arg(2) == "1", arg(3) == "1");
            match arg(1) {
                "FramingCapabilities" => {
                    let v = FramingCapabilities::new(x, y);
                    let w = print_avp(&AVP::FramingCapabilities(v));
                    format!("w={} first={} second={}", &w[20..w.len() - 1], b01(v.is_async_framing_supported()), b01(v.is_sync_framing_supported()))
                }
                "BearerCapabilities" => {
                    let v = BearerCapabilities::new(x, y);
                    let w = print_avp(&AVP::BearerCapabilities(v));
                    format!("w={} first={} second={}", &w[19..w.len() - 1], b01(v.is_digital_access_supported()), b01(v.is_analog_access_supported()))
                }
                "BearerType" => {
                    let v = BearerType::new(x, y);
                    let w = print_avp(&AVP::BearerType(v));
                    format!("w={} first={} second={}", &w[11..w.len() - 1], b01(v.is_analog_request()), b01(v.is_digital_request()))
                }
                "FramingType" => {
                    let v = FramingType::new(x, y);
                    let w = print_avp(&AVP::FramingType(v));
                    format!("w={} first={} second={}", &w[12..w.len() - 1], b01(v.is_analog_request()), b01(v.is_digital_request()))
                }
                k => return Err(format!("bm kind: {k}")),
            }
        }
        "BITW" => {
            let a = parse_avp(&format!("{}({})", arg(1), arg(2)))?;
            match a {
                AVP::FramingCapabilities(v) => format!("first={} second={}", b01(v.is_async_framing_supported()), b01(v.is_sync_framing_supported())),
                AVP::BearerCapabilities(v) => format!("first={} second={}", b01(v.is_digital_access_supported()), b01(v.is_analog_access_supported())),
                AVP::BearerType(v) => format!("first={} second={}", b01(v.is_analog_request()), b01(v.is_digital_request())),
                AVP::FramingType(v) => format!("first={} second={}", b01(v.is_analog_request()), b01(v.is_digital_request())),
                _ => return Err("bm kind".into()),
            }
        }
        "CODE" => {
            let x: u16 = arg(1).parse().map_err(|_| "code".to_string())?;
            let c = CodeValue::from(x);
            format!(
                "stop={} cdn={} raw={}",
                c.as_stop_ccn().map(|v| sc_name(&v)).unwrap_or("-"),
                c.as_cdn().map(|v| cd_name(&v)).unwrap_or("-"),
                u16::from(c)
            )
        }
        "CODEN" => match arg(1) {
            "stop" => format!("{}", u16::from(CodeValue::from(sc_of(arg(2))?))),
            "cdn" => format!("{}", u16::from(CodeValue::from(cd_of(arg(2))?))),
            _ => return Err("CODEN".into()),
        },
        "SHOW" => parse_err(arg(1))?.to_string(),
        "UTF8" => b01(std::str::from_utf8(&unhex(arg(1))?).is_ok()).to_string(),
        c => return Err(format!("channel: {c}")),
    })
}

fn run_line(line: &str) -> String {
    match catch_unwind(AssertUnwindSafe(|| run_case(line))) {
        Ok(Ok(s)) => s,
        Ok(Err(e)) => format!("BADCASE {e}"),
        Err(_) => "PANIC".to_string(),
    }
}

fn main() {
    std::panic::set_hook(Box::new(|_| {}));
    let args: Vec<String> = std::env::args().collect();
    let mut out_path: Option<String> = None;
    let mut threads = 0usize;
    let mut rounds = 1usize;
    let mut i = 1;
    while i < args.len() {
        match args[i].as_str() {
            "--out" => { out_path = Some(args[i + 1].clone()); i += 2; }
            "--threads" => { threads = args[i + 1].parse().unwrap(); i += 2; }
            "--rounds" => { rounds = args[i + 1].parse().unwrap(); i += 2; }
            _ => { i += 1; }
        }
    }
    let stdin = std::io::stdin();
    let lines: Vec<String> = stdin.lock().lines().map(|l| l.unwrap()).collect();
    let mut sink: Box<dyn IoWrite + Send> = match &out_path {
        Some(p) => Box::new(std::io::BufWriter::new(std::fs::File::create(p).unwrap())),
        None => Box::new(std::io::BufWriter::new(std::io::stdout())),
    };
    if threads == 0 {
        // the cases run on one spawned thread with Rust's default stack (2 MiB): what a library user's worker thread has,
        // not the 8 MiB of a main thread
        let h = std::thread::spawn(move || {
            for l in &lines {
                let r = run_line(l);
                // flush per line so that a later abort does not lose completed results
                writeln!(sink, "{}", r).unwrap();
                sink.flush().unwrap();
            }
        });
        let _ = h.join();
        return;
    }
    // purity mode: sequential pass, then the same cases from many threads in
    // different orders, repeated; every result must equal the sequential one
    let seq: Vec<String> = lines.iter().map(|l| run_line(l)).collect();
    let lines = std::sync::Arc::new(lines);
    let seq_a = std::sync::Arc::new(seq.clone());
    let mut handles = vec![];
    for t in 0..threads {
        let lines = lines.clone();
        let seq_a = seq_a.clone();
        handles.push(std::thread::spawn(move || {
            let n = lines.len();
            let mut mism = vec![];
            let mut state: u64 = 0x9E3779B97F4A7C15u64.wrapping_mul(t as u64 + 1);
            for round in 0..rounds {
                // visit order: an affine permutation when possible, else offset rotation
                let step = { state = state.wrapping_mul(6364136223846793005).wrapping_add(1442695040888963407); (state >> 33) as usize };
                for k in 0..n {
                    let idx = if n == 0 { 0 } else { (k + step + round) % n };
                    let r = run_line(&lines[idx]);
                    if r != seq_a[idx] {
                        mism.push(format!("MISMATCH\t{}\t{}\t{}\t{}", idx, t, round, r));
                    }
                }
            }
            mism
        }));
    }
    let mut all = vec![];
    for h in handles {
        all.extend(h.join().unwrap());
    }
    for r in &seq {
        writeln!(sink, "{}", r).unwrap();
    }
    writeln!(sink, "THREADS\t{}\t{}\t{}", threads, rounds, all.len()).unwrap();
    for m in all {
        writeln!(sink, "{}", m).unwrap();
    }
    sink.flush().unwrap();
}
