//! A conforming implementation of the public `Reader` trait that hands out at most `limit` octets per `bytes()` call:
//! a longer request is answered with `None` although enough octets remain (what a ring buffer does across its wrap-around).
//! Everything else is `SliceReader`'s behaviour.  Counterpart of `LimitReader` in coq/theories/Model/Show.v.
use rl2tp::common::Reader;

#[derive(Clone, Copy)]
pub struct LimitReader<'a> {
    pub data: &'a [u8],
    pub limit: usize,
}

impl<'a> Reader<&'a [u8]> for LimitReader<'a> {
    fn is_empty(&self) -> bool { self.data.is_empty() }
    fn len(&self) -> usize { self.data.len() }
    fn subreader(&mut self, length: usize) -> Self {
        let r = LimitReader { data: &self.data[..length], limit: self.limit };
        self.data = &self.data[length..];
        r
    }
    fn skip_bytes(&mut self, length: usize) { self.data = &self.data[length..]; }
    fn bytes(&mut self, length: usize) -> Option<&'a [u8]> {
        if length > self.limit { return None; }
        let r = self.data.get(..length)?;
        self.data = &self.data[length..];
        Some(r)
    }
    unsafe fn read_u8_unchecked(&mut self) -> u8 { let v = self.data[0]; self.data = &self.data[1..]; v }
    unsafe fn read_u16_be_unchecked(&mut self) -> u16 { let v = u16::from_be_bytes([self.data[0], self.data[1]]); self.data = &self.data[2..]; v }
    unsafe fn read_u32_be_unchecked(&mut self) -> u32 {
        let v = u32::from_be_bytes([self.data[0], self.data[1], self.data[2], self.data[3]]); self.data = &self.data[4..]; v
    }
    unsafe fn read_u64_be_unchecked(&mut self) -> u64 {
        let mut a = [0u8; 8]; a.copy_from_slice(&self.data[..8]); self.data = &self.data[8..]; u64::from_be_bytes(a)
    }
}

/// A conforming reader whose storage has a seam `seam` octets ahead (a ring buffer across its wrap-around): a `bytes()`
/// request that would straddle the seam is refused although the octets are there.  Counterpart of `SeamReader` in
/// coq/theories/Model/Show.v.
#[derive(Clone, Copy)]
pub struct SeamReader<'a> {
    pub data: &'a [u8],
    pub seam: Option<usize>,
}

impl<'a> SeamReader<'a> {
    pub fn new(data: &'a [u8], seam: usize) -> Self { SeamReader { data, seam: if seam == 0 { None } else { Some(seam) } } }
    fn adv(&mut self, n: usize) {
        self.data = &self.data[n..];
        self.seam = match self.seam { Some(x) if n < x => Some(x - n), _ => None };
    }
}

impl<'a> Reader<&'a [u8]> for SeamReader<'a> {
    fn is_empty(&self) -> bool { self.data.is_empty() }
    fn len(&self) -> usize { self.data.len() }
    fn subreader(&mut self, length: usize) -> Self {
        let r = SeamReader { data: &self.data[..length], seam: match self.seam { Some(x) if x < length => Some(x), _ => None } };
        self.adv(length);
        r
    }
    fn skip_bytes(&mut self, length: usize) { let _ = &self.data[length..]; self.adv(length); }
    fn bytes(&mut self, length: usize) -> Option<&'a [u8]> {
        if length > self.data.len() { return None; }
        if let Some(x) = self.seam { if x < length { return None; } }
        let r = &self.data[..length];
        self.adv(length);
        Some(r)
    }
    unsafe fn read_u8_unchecked(&mut self) -> u8 { let v = self.data[0]; self.adv(1); v }
    unsafe fn read_u16_be_unchecked(&mut self) -> u16 { let v = u16::from_be_bytes([self.data[0], self.data[1]]); self.adv(2); v }
    unsafe fn read_u32_be_unchecked(&mut self) -> u32 {
        let v = u32::from_be_bytes([self.data[0], self.data[1], self.data[2], self.data[3]]); self.adv(4); v
    }
    unsafe fn read_u64_be_unchecked(&mut self) -> u64 {
        let mut a = [0u8; 8]; a.copy_from_slice(&self.data[..8]); self.adv(8); u64::from_be_bytes(a)
    }
}
