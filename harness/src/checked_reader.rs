//! A harness-supplied implementation of the public `Reader` trait that checks
//! every call against the octets remaining.  An out-of-contract call is logged
//! and answered with zeros / a clamped range instead of reading outside.
use rl2tp::common::Reader;
use std::cell::RefCell;
use std::rc::Rc;

#[derive(Clone)]
pub struct CheckedReader {
    data: Rc<Vec<u8>>,
    pos: usize,
    end: usize,
    pub log: Rc<RefCell<Vec<String>>>,
    /// reader operations issued + octets handed out by bytes(): the cost measure of Model/Cost.v
    pub cost: Rc<std::cell::Cell<u64>>,
}

impl CheckedReader {
    pub fn new(data: Vec<u8>) -> Self {
        let end = data.len();
        Self { data: Rc::new(data), pos: 0, end, log: Rc::new(RefCell::new(Vec::new())), cost: Rc::new(std::cell::Cell::new(0)) }
    }
    fn rem(&self) -> usize { self.end - self.pos }
    fn tick(&self, n: u64) { self.cost.set(self.cost.get() + n); }
    fn violation(&self, what: &str, n: usize) {
        self.log.borrow_mut().push(format!("{}({})@rem={}", what, n, self.rem()));
    }
    fn fixed(&mut self, what: &str, n: usize) -> u64 {
        self.tick(1);
        if self.rem() < n {
            self.violation(what, n);
            self.pos = self.end;
            return 0;
        }
        let mut v: u64 = 0;
        for i in 0..n { v = (v << 8) | self.data[self.pos + i] as u64; }
        self.pos += n;
        v
    }
}

impl Reader<Vec<u8>> for CheckedReader {
    fn is_empty(&self) -> bool { self.tick(1); self.rem() == 0 }
    fn len(&self) -> usize { self.tick(1); self.rem() }
    fn subreader(&mut self, length: usize) -> Self {
        self.tick(1);
        let mut n = length;
        if n > self.rem() { self.violation("subreader", length); n = self.rem(); }
        let sub = Self { data: self.data.clone(), pos: self.pos, end: self.pos + n, log: self.log.clone(), cost: self.cost.clone() };
        self.pos += n;
        sub
    }
    fn bytes(&mut self, length: usize) -> Option<Vec<u8>> {
        self.tick(1);
        if length > self.rem() { return None; }
        self.tick(length as u64);
        let r = self.data[self.pos..self.pos + length].to_vec();
        self.pos += length;
        Some(r)
    }
    unsafe fn read_u8_unchecked(&mut self) -> u8 { self.fixed("read_u8", 1) as u8 }
    unsafe fn read_u16_be_unchecked(&mut self) -> u16 { self.fixed("read_u16", 2) as u16 }
    unsafe fn read_u32_be_unchecked(&mut self) -> u32 { self.fixed("read_u32", 4) as u32 }
    unsafe fn read_u64_be_unchecked(&mut self) -> u64 { self.fixed("read_u64", 8) }
    fn skip_bytes(&mut self, length: usize) {
        self.tick(1);
        let mut n = length;
        if n > self.rem() { self.violation("skip_bytes", length); n = self.rem(); }
        self.pos += n;
    }
}
